# -*- coding: utf-8 -*-
"""Run one scenario through the real rqalpha (from PYTHONPATH) and record a trace.

A scenario is a plain dict (JSON-serialisable):
  world_seed, world_opts         -> harness.world.gen_world
  cfg                            -> rqalpha config (without data_bundle_path)
  start_i, end_i                 -> indices into world.days
  script: {"<day_i>|<phase>|<bar_k>": [action, ...]}   phase in init/before_trading/open_auction/handle_bar/after_trading
  universe: [ids]                -> subscribed in init (minute frequency needs it)

The trace is a list of marks (dicts):
  ev0 / ev1   first / last listener of every bus event (snapshot of the whole kernel state)
  user0/user1 start / end of a strategy callback
  api0 / api1 around every scripted API call (action, returned orders, exception class)
Listeners installed by the recorder never raise into the run and only read.
"""
import datetime
import os
import random
import shutil
import sys
import tempfile
import traceback
import zlib

HERE = os.path.dirname(os.path.abspath(__file__))
if os.path.join(HERE, 'mods') not in sys.path:
    sys.path.insert(0, os.path.join(HERE, 'mods'))

from . import world as W

SCRATCH_ROOT = os.environ.get('VERIF_SCRATCH', '/dev/shm' if os.path.isdir('/dev/shm') else tempfile.gettempdir())


def fnum(x):
    try:
        if x is None:
            return None
        return float(x)
    except Exception:
        return None


def order_snap(o):
    try:
        st = o._status.name if o._status is not None else None
        return dict(id=o._order_id, oid=o._order_book_id, side=o._side.name if o._side is not None else None,
                    eff=o.position_effect.name if o._side is not None else None,
                    type=o._type.name if o._type is not None else None, fprice=fnum(o._frozen_price),
                    qty=fnum(o._quantity), filled=fnum(o._filled_quantity), avg=fnum(o._avg_price),
                    tcost=fnum(o._transaction_cost), reserve=fnum(o._init_frozen_cash), status=st,
                    msg=(o._message or '')[:200])
    except Exception as e:
        return dict(err=repr(e))


def trade_snap(t):
    return dict(order_id=t.order_id, oid=t.order_book_id, side=t.side.name, eff=t.position_effect.name if t.position_effect else None,
                price=fnum(t.last_price), qty=fnum(t.last_quantity), commission=fnum(t._commission), tax=fnum(t._tax),
                ct=fnum(t._close_today_amount), fprice=fnum(t.frozen_price), exec_id=t.exec_id,
                dir=t.position_direction.name)


def pos_priv(p):
    d = dict(qty=fnum(p._quantity), old=fnum(p._old_quantity), lold=fnum(p._logical_old_quantity), avg=fnum(p._avg_price),
             trade_cost=fnum(p._trade_cost), tcost=fnum(p._transaction_cost), prev_close=fnum(p._prev_close),
             last=fnum(p._last_price), cls=type(p).__name__)
    if hasattr(p, '_non_closable'):
        d['non_closable'] = fnum(p._non_closable)
    if hasattr(p, '_dividend_receivable'):
        r = p._dividend_receivable
        d['recv'] = [W.dint(r[0]), fnum(r[1])] if r else None
    return d


def pos_pub(p):
    d = {}
    for k in ('quantity', 'closable', 'today_closable', 'market_value', 'equity', 'last_price', 'avg_price',
              'trading_pnl', 'position_pnl', 'transaction_cost', 'prev_close'):
        try:
            d[k] = fnum(getattr(p, k))
        except Exception as e:
            d[k] = 'ERR:' + type(e).__name__
    if hasattr(p, 'margin'):
        try:
            d['margin'] = fnum(p.margin)
            d['old_quantity'] = fnum(p.old_quantity)
            d['today_quantity'] = fnum(p.today_quantity)
        except Exception as e:
            d['margin'] = 'ERR:' + type(e).__name__
    if hasattr(p, 'dividend_receivable'):
        d['dividend_receivable'] = fnum(p.dividend_receivable)
    return d


class Recorder(object):
    def __init__(self, env, light=False):
        self.env = env
        self.marks = []
        self.errors = []
        self.light = light          # light: no snapshots (event sequence / clocks only)
        self.hold = False           # resumed runs: no snapshots (they read lazily cached prices) before the clock is set by the first trading event
        self.depth = 0

    def snapshot(self):
        env = self.env
        from rqalpha.core.execution_context import ExecutionContext
        out = dict(cal=str(env.calendar_dt), trd=str(env.trading_dt))
        try:
            out['phase'] = ExecutionContext.phase().name
        except Exception:
            out['phase'] = None
        if self.light or self.hold:
            return out
        pf = env.portfolio
        accs = {}
        pub = {}
        # public views first (they may lazily fill private fields), private state afterwards
        for t, a in pf.accounts.items():
            pv = {}
            for k in ('cash', 'frozen_cash', 'total_value', 'market_value', 'margin', 'buy_margin', 'sell_margin',
                      'daily_pnl', 'trading_pnl', 'position_pnl', 'transaction_cost', 'total_cash', 'cash_liabilities',
                      'cash_liabilities_interest', 'position_equity', 'management_fees'):
                try:
                    pv[k] = fnum(getattr(a, k))
                except Exception as e:
                    pv[k] = 'ERR:' + type(e).__name__
            pp = {}
            for oid, ps in a._positions.items():
                pp[oid] = {d.name: pos_pub(p) for d, p in ps.items()}
            pv['pos'] = pp
            try:
                pv['listed'] = [(p.order_book_id, p.direction.name) for p in a.get_positions()]
            except Exception as e:
                pv['listed'] = 'ERR:' + type(e).__name__
            pub[t] = pv
        for k in ('units', 'unit_net_value', 'total_value', 'cash', 'daily_returns', 'total_returns', 'static_unit_net_value',
                  'daily_pnl', 'market_value', 'frozen_cash', 'transaction_cost'):
            try:
                pub['p_' + k] = fnum(getattr(pf, k))
            except Exception as e:
                pub['p_' + k] = 'ERR:' + type(e).__name__
        out['pub'] = pub
        for t, a in pf.accounts.items():
            accs[t] = dict(total_cash=fnum(a._total_cash), frozen=fnum(a._frozen_cash), liab=fnum(a._cash_liabilities),
                           pending=[[W.dint(d.date() if hasattr(d, 'date') else d), fnum(x)] for d, x in a._pending_deposit_withdraw],
                           mgmt_fees=fnum(a._management_fees), mgmt_rate=fnum(a._management_fee_rate),
                           seen=len(a._backward_trade_set),
                           pos={oid: {d.name: pos_priv(p) for d, p in ps.items()} for oid, ps in a._positions.items()})
        out['acc'] = accs
        out['units'] = fnum(pf._units)
        out['static_nav'] = fnum(pf._static_unit_net_value)
        br = env.broker
        try:
            out['open'] = [order_snap(o) for _, o in br._open_orders]
            out['auction'] = [order_snap(o) for _, o in br._open_auction_orders]
            tv = {}
            for m in br._matchers.values():
                for k, v in getattr(m, '_turnover', {}).items():
                    tv[k] = tv.get(k, 0) + v
            out['turnover'] = tv
        except Exception:
            out['open'] = None      # signal broker has no books
        try:
            import rqalpha.api as _api
            sc = getattr(_api, 'scheduler', None)
            if sc is not None and sc._registry:
                out['sched'] = dict(today=W.dint(sc._today) if sc._today else None,
                                    week=[d.toordinal() for d in (sc._this_week or [])], month=[d.toordinal() for d in (sc._this_month or [])],
                                    last_minute=sc._last_minute, current_minute=sc._current_minute, stage=sc._stage,
                                    start_minute=sc._start_minute, ranges=sorted(list(r) for r in sc._trading_minute_range))
        except Exception:
            pass
        try:
            dec = env._transaction_cost_decider_dict
            cm = {}
            for k, dcd in dec.items():
                if hasattr(dcd, 'commission_map'):
                    cm.update({str(i): fnum(v) for i, v in dcd.commission_map.items()})
                    out['tax_rate'] = fnum(getattr(dcd, 'tax_rate', None))
            out['cmap'] = cm
        except Exception:
            pass
        return out

    def mark(self, kind, **kw):
        try:
            m = dict(k=kind, snap=self.snapshot())
            m.update(kw)
            self.marks.append(m)
        except Exception as e:           # never raise into the run
            self.errors.append((kind, repr(e), traceback.format_exc()[-400:]))

    def install(self):
        from rqalpha.core.events import EVENT
        bus = self.env.event_bus
        for ev in EVENT:
            bus.prepend_listener(ev, self._first(ev))
            bus.add_listener(ev, self._last(ev))
        self._wrap_matchers()

    def _wrap_matchers(self):
        """bracket every matcher.match call with marks (harness-side proxy; nothing in /repo is changed)"""
        br = self.env.broker
        orig = getattr(br, '_get_matcher', None)
        if orig is None:
            return
        rec = self
        proxies = {}

        class Proxy(object):
            def __init__(self, real):
                object.__setattr__(self, '_real', real)

            def __getattr__(self, k):
                return getattr(object.__getattribute__(self, '_real'), k)

            def match(self, account, order, open_auction):
                rec.mark('match0', order=order_snap(order), auction=bool(open_auction), acc=account.type)
                try:
                    return object.__getattribute__(self, '_real').match(account, order, open_auction)
                finally:
                    rec.mark('match1', order=order_snap(order), auction=bool(open_auction), acc=account.type)

        def get_matcher(order_book_id):
            m = orig(order_book_id)
            if id(m) not in proxies:
                proxies[id(m)] = Proxy(m)
            return proxies[id(m)]
        br._get_matcher = get_matcher

    def _payload(self, e):
        out = {}
        try:
            tr = getattr(e, 'trade', None)
            if tr is not None:
                out['trade'] = trade_snap(tr)
            o = getattr(e, 'order', None)
            if o is not None:
                out['order'] = order_snap(o)
            acc = getattr(e, 'account', None)
            if acc is not None:
                out['acc'] = acc.type
            if getattr(e, 'reason', None):
                out['reason'] = str(e.reason)[:80]
            for k in ('calendar_dt', 'trading_dt'):
                if hasattr(e, k):
                    out[k] = str(getattr(e, k))
        except Exception as ex:
            out['err'] = repr(ex)
        return out

    def _first(self, ev):
        def f(e):
            if self.hold and ev.name in ('PRE_SETTLEMENT', 'PRE_BEFORE_TRADING', 'BEFORE_TRADING'):
                self.hold = False
            self.mark('ev0', ev=ev.name, payload=self._payload(e))
        return f

    def _last(self, ev):
        def f(e):
            self.mark('ev1', ev=ev.name, payload=self._payload(e))
        return f


def _style(api, env, act):
    st = act.get('style')
    if st is None or st == 'mkt':
        return None
    if st[0] == 'lim':      # relative to last price, rounded to 2 decimals
        px = env.get_last_price(act['id'])
        return api.LimitOrder(round(px * st[1], 2))
    if st[0] == 'limabs':
        return api.LimitOrder(float(st[1]))       # 'nan' is written as a string in scenarios
    raise ValueError(st)


def do_action(api, env, context, act, orders, rec):
    """Execute one scripted action against rqalpha.api; returns (returned orders, extra result)."""
    op = act['op']
    res = None
    ret = []
    if op in ('order_shares', 'order_lots', 'order_value', 'order_percent', 'order_target_value',
              'order_target_percent', 'order', 'order_to', 'buy_open', 'sell_open'):
        st = _style(api, env, act)
        r = getattr(api, op)(act['id'], act['amt'], st) if st is not None else getattr(api, op)(act['id'], act['amt'])
        ret = r if isinstance(r, list) else [r]
    elif op in ('buy_close', 'sell_close'):
        st = _style(api, env, act)
        r = getattr(api, op)(act['id'], act['amt'], st, close_today=act.get('ct', False))
        ret = r if isinstance(r, list) else [r]
    elif op == 'submit_order':
        from rqalpha.const import SIDE, POSITION_EFFECT
        st = act.get('style')
        price = None
        if st and st != 'mkt':
            price = round(env.get_last_price(act['id']) * st[1], 2) if st[0] == 'lim' else st[1]
        r = api.submit_order(act['id'], act['amt'], SIDE[act['side']], price=price,
                             position_effect=POSITION_EFFECT[act['eff']] if act.get('eff') else None)
        ret = [r]
    elif op == 'cancel' and act.get('today') is not None:
        # the j-th order submitted today (independent of where the run started)
        today = [o for o in orders if o.trading_datetime.date() == env.trading_dt.date()]
        if today:
            o = today[act['today'] % len(today)]
            api.cancel_order(o)
            res = dict(target=o.order_id)
        else:
            res = dict(target=None)
    elif op == 'cancel':
        k = act['k']
        if k < len(orders):
            api.cancel_order(orders[k])
            res = dict(target=orders[k].order_id)
        else:
            res = dict(target=None)
    elif op == 'deposit':
        api.deposit(act['acc'], act['amt'], act.get('days', 0))
    elif op == 'withdraw':
        api.withdraw(act['acc'], act['amt'])
    elif op == 'finance':
        api.finance(act['amt'])
    elif op == 'repay':
        api.repay(act['amt'])
    elif op == 'history_bars':
        r = api.history_bars(act['id'], act['n'], act.get('freq', '1d'), act.get('fields'), skip_suspended=act.get('skip', True),
                             include_now=act.get('now', False), adjust_type=act.get('adjust', 'pre'))
        if r is None:
            res = None
        elif act.get('fields') is None or isinstance(act.get('fields'), list):
            res = [[float(x) if not isinstance(x, str) else x for x in row] for row in r.tolist()]
            res = dict(names=list(r.dtype.names), rows=res)
        else:
            res = [float(x) for x in r.tolist()]
    elif op == 'prev_date':
        res = str(api.get_previous_trading_date(act['d'], act.get('n', 1)))
    elif op == 'next_date':
        res = str(api.get_next_trading_date(act['d'], act.get('n', 1)))
    elif op == 'trading_dates':
        res = [str(x.date()) for x in api.get_trading_dates(act['a'], act['b'])]
    elif op == 'count_dates':
        res = int(env.data_proxy.count_trading_dates(act['a'], act['b']))
    elif op == 'subscribe':
        api.subscribe(act['ids'])
    elif op == 'unsubscribe':
        left = set(env.get_universe()) - set(act['ids'])
        if not left and 'stock' not in [str(k).lower() for k in env.config.base.accounts]:
            # a futures-only run with an empty universe is aborted by design ("Current universe is empty"): not a scenario
            res = 'skipped: would empty the universe of a futures-only run'
        else:
            api.unsubscribe(act['ids'])
    elif op == 'update_universe':
        if not act['ids'] and 'stock' not in [str(k).lower() for k in env.config.base.accounts]:
            res = 'skipped: would empty the universe of a futures-only run'
        else:
            api.update_universe(act['ids'])
    elif op == 'raise':
        raise RuntimeError('scripted user error')
    elif op == 'raise_api':
        api.order_shares('NOSUCH.XSHE', 100)
    elif op == 'snapshot':
        s = api.current_snapshot(act['id'])
        res = dict(last=fnum(s.last), open=fnum(s.open), high=fnum(s.high), low=fnum(s.low), volume=fnum(s.volume),
                   prev_close=fnum(s.prev_close), dt=str(s.datetime))
    elif op == 'bar':
        b = context._bar_dict[act['id']]
        res = {}
        for k in ('open', 'close', 'high', 'low', 'last', 'volume', 'total_turnover', 'limit_up', 'limit_down', 'prev_close'):
            try:
                res[k] = fnum(getattr(b, k))
            except Exception as e:
                res[k] = 'ERR:' + type(e).__name__
    elif op == 'bar_mavg':
        b = context._bar_dict[act['id']]
        res = {}
        for k in ('mavg', 'vwap'):
            try:
                res[k] = fnum(getattr(b, k)(act['n']))
            except Exception as e:
                res[k] = 'ERR:' + type(e).__name__
    elif op == 'position':
        p = api.get_position(act['id'], getattr(__import__('rqalpha.const', fromlist=['x']).POSITION_DIRECTION, act.get('dir', 'LONG')))
        res = dict(quantity=fnum(p.quantity), last_price=fnum(p.last_price), closable=fnum(p.closable))
    elif op == 'future_contracts':
        res = list(api.get_future_contracts(act['und']))
    elif op == 'instruments':
        r = api.instruments(act['id'])
        res = None if r is None else dict(id=r.order_book_id, type=str(r.type), listed=str(r.listed_date)[:10], lot=fnum(r.round_lot))
    elif op == 'ctx_set':
        setattr(context, act['name'], act['value'])
    elif op == 'ctx_add':
        setattr(context, act['name'], getattr(context, act['name'], 0) + act.get('by', 1))
        res = getattr(context, act['name'])
    elif op == 'ctx_get':
        res = repr(getattr(context, act['name'], '<unset>'))
    elif op == 'g_add':
        g = env.global_vars
        setattr(g, act['name'], getattr(g, act['name'], 0) + act.get('by', 1))
        res = getattr(g, act['name'])
    elif op == 'feedback':
        # an order computed from everything the strategy has observed so far
        h = getattr(rec, 'digest', 0)
        oid = act['ids'][h % len(act['ids'])]
        if oid in W.FUTS:
            f = [api.buy_open, api.sell_open, api.sell_close, api.buy_close][(h // 11) % 4]
            r = f(oid, (h // 7) % 3 + 1)
            ret = r if isinstance(r, list) else [r]
        else:
            ret = [api.order_shares(oid, ((h // 7) % 5 + 1) * 100 * (1 if (h // 5) % 3 else -1))]
        res = dict(digest=h)
    elif op == 'mgmt_fee':
        context.portfolio.accounts[act['acc']].set_management_fee_rate(act['rate'])
    else:
        raise ValueError('unknown op ' + op)
    for o in ret:
        if o is not None and not isinstance(o, list):
            orders.append(o)
    return [order_snap(o) for o in ret if o is not None and not isinstance(o, list)], res


def build_config(scn, bundle):
    import copy
    cfg = copy.deepcopy(scn['cfg'])
    cfg.setdefault('base', {})['data_bundle_path'] = bundle
    cfg.setdefault('extra', {}).setdefault('log_level', 'error')
    mod = cfg.setdefault('mod', {})
    mod.setdefault('sys_progress', {})['enabled'] = False
    mod.setdefault('sys_analyser', {}).setdefault('enabled', False)
    if cfg['base'].get('frequency') == '1m':
        mod['vmin'] = {'enabled': True, 'lib': 'rqalpha_mod_vmin', 'priority': 50}
    if scn.get('persist'):
        cfg['base']['persist'] = True
        cfg['base']['persist_mode'] = scn['persist'].get('mode', 'real_time')
        mod['vpersist'] = {'enabled': True, 'lib': 'rqalpha_mod_vpersist', 'priority': 40, 'snapshot': bool(scn['persist'].get('snapshot'))}
    for k, pr in enumerate(scn.get('probes', [])):
        mod['vprobe%d' % k] = dict(enabled=True, lib='rqalpha_mod_vprobe', priority=pr['priority'], tag=pr['tag'], teardown_raises=pr.get('teardown_raises', False),
                                   fault_event=pr.get('fault_event'), fault_day=pr.get('fault_day'))
    return cfg


def run_scenario(scn, light=False, extra_init=None, keep_bundle=None, world=None, want_result=False):
    """Returns dict(trace=marks, errors=recorder errors, result=run_func result or None, exc=..., world=World)."""
    from rqalpha import run_func
    from rqalpha.environment import Environment
    import rqalpha.api as api

    rng = random.Random(scn['world_seed'])
    w = world or W.gen_world(rng, scn.get('world_opts'))
    W.apply_overrides(w, scn.get('world_overrides'))
    if scn.get('prune_world') is not None:
        W.prune(w, scn['prune_world'])
    if scn.get('future_mut'):
        W.mutate_future(w, scn['future_mut'])
    bundle = keep_bundle or tempfile.mkdtemp(prefix='vb_', dir=SCRATCH_ROOT)
    try:
        if not os.path.exists(os.path.join(bundle, 'trading_dates.npy')):
            W.write_bundle(w, bundle)
        days = w.days
        cfg = build_config(scn, bundle)
        cfg['base']['start_date'] = scn.get('start_date') or str(days[scn['start_i']])
        cfg['base']['end_date'] = scn.get('end_date') or str(days[scn['end_i']])
        script = scn.get('script', {})
        box = {'rec': None, 'orders': [], 'bar_k': {}}

        def run_phase(context, bar_dict, ph):
            rec = box['rec']
            env = rec.env
            d = env.trading_dt.date()
            i = days.index(d) if d in days else -1
            if ph == 'handle_bar':
                k = box['bar_k'].get(i, 0)
                box['bar_k'][i] = k + 1
            else:
                k = 0
            context._bar_dict = bar_dict
            rec.mark('user0', ph=ph, day=i, bar=k)
            for act in script.get('%d|%s|%d' % (i, ph, k), []) + (script.get('*|%s' % ph, [])):
                rec.mark('api0', act=act, ph=ph, day=i, bar=k)
                exc = None
                ret, res = [], None
                try:
                    ret, res = do_action(api, env, context, act, box['orders'], rec)
                except Exception as e:
                    exc = dict(cls=type(e).__name__, msg=str(e)[:120], user=bool(getattr(e, 'rqalpha_exc_type', None) and 'USER' in str(getattr(e, 'rqalpha_exc_type', ''))))
                    if act['op'] in ('raise', 'raise_api') or act.get('fatal'):
                        rec.mark('api1', act=act, ret=ret, res=res, exc=exc)
                        raise
                if act['op'] != 'cancel':
                    rec.digest = zlib.crc32(repr((res, [(o.get('status'), o.get('qty'), o.get('filled')) for o in ret], exc and exc['cls'])).encode(), getattr(rec, 'digest', 0))
                rec.mark('api1', act=act, ret=ret, res=res, exc=exc)
            rec.mark('user1', ph=ph, day=i, bar=k)

        def init(context):
            env = Environment.get_instance()
            rec = Recorder(env, light=light)
            rec.hold = bool((scn.get('persist') or {}).get('resume'))
            box['rec'] = rec
            rec.install()
            if scn.get('universe'):
                api.update_universe(scn['universe'])
            if extra_init:
                extra_init(context, env, rec, box)
            ehf = scn.get('event_handler_fault')
            if ehf:
                from rqalpha.core.events import EVENT as _EV
                cnt = {'n': 0}

                def handler(context, event):
                    cnt['n'] += 1
                    rec.mark('user0', ph='event_handler', day=-3, bar=cnt['n'])
                    if cnt['n'] == ehf[1]:
                        raise RuntimeError('scripted failure in a subscribed event handler')
                api.subscribe_event(_EV[ehf[0]], handler)
            for reg in scn.get('sched', []):
                install_sched(api, reg, rec)
            for sub in scn.get('subs', []):
                install_sub(api, sub, rec, context, box)
            context._bar_dict = None
            if scn.get('record_proc'):
                rec.mark('proc', proc=proc_state(env))
            rec.mark('user0', ph='init', day=-1, bar=0)
            for act in script.get('-1|init|0', []):
                rec.mark('api0', act=act, ph='init', day=-1, bar=0)
                exc = None
                ret, res = [], None
                try:
                    ret, res = do_action(api, env, context, act, box['orders'], rec)
                except Exception as e:
                    exc = dict(cls=type(e).__name__, msg=str(e)[:120])
                    if act['op'] in ('raise', 'raise_api'):
                        rec.mark('api1', act=act, ret=ret, res=res, exc=exc)
                        raise
                rec.mark('api1', act=act, ret=ret, res=res, exc=exc)
            rec.mark('user1', ph='init', day=-1, bar=0)

        funcs = dict(init=init)
        phases = scn.get('callbacks', ['before_trading', 'open_auction', 'handle_bar', 'after_trading'])
        if 'before_trading' in phases:
            funcs['before_trading'] = lambda context: run_phase(context, None, 'before_trading')
        if 'open_auction' in phases:
            funcs['open_auction'] = lambda context, bar_dict: run_phase(context, bar_dict, 'open_auction')
        if 'handle_bar' in phases:
            funcs['handle_bar'] = lambda context, bar_dict: run_phase(context, bar_dict, 'handle_bar')
        if 'after_trading' in phases:
            funcs['after_trading'] = lambda context: run_phase(context, None, 'after_trading')
        result = None
        exc = None
        probe_log = None
        if scn.get('probes'):
            import rqalpha_mod_vprobe
            rqalpha_mod_vprobe.LOG[:] = []
            probe_log = rqalpha_mod_vprobe.LOG
        try:
            result = run_func(config=cfg, **funcs)
        except BaseException as e:      # run_func swallows strategy errors itself; this is a harness / config error
            exc = dict(cls=type(e).__name__, msg=str(e)[:300], tb=traceback.format_exc()[-1500:])
        rec = box['rec']
        out = dict(trace=rec.marks if rec else [], errors=rec.errors if rec else [('init', 'recorder not installed', '')],
                   exc=exc, world=w, orders=[order_snap(o) for o in box['orders']], days=days, cfg=cfg,
                   has_result=result is not None and bool(result), result_is_none=result is None,
                   has_report=bool(result) and 'sys_analyser' in result, probe_log=list(probe_log) if probe_log is not None else None)
        if want_result:
            out['result'] = result
        return out
    finally:
        if not keep_bundle:
            shutil.rmtree(bundle, ignore_errors=True)


def proc_state(env):
    """process-wide state a run can see: class-level switches, the environment singleton, the margin switch, memoised results"""
    from rqalpha.environment import Environment
    from rqalpha.mod.rqalpha_mod_sys_accounts.position_model import StockPosition
    from rqalpha.portfolio.account import Account
    from rqalpha.core.execution_context import ExecutionContext
    from rqalpha.utils import functools as F
    return dict(reinvest=bool(StockPosition.dividend_reinvestment), cash_return=bool(StockPosition.cash_return_by_stock_delisted),
                t1=bool(StockPosition.t_plus_enabled), env_is_current=Environment.get_instance() is env,
                margin_switch_on=not hasattr(Account, '_margin'), future_apis=hasattr(__import__('rqalpha.api', fromlist=['x']), 'get_future_contracts'),
                cached_entries=sum(f.cache_info().currsize for f in F.cached_functions))


def install_sub(api, sub, rec, context0, box):
    """sub: dict(ev=<EVENT name>, acts=[...], every=k): a handler registered with subscribe_event that performs the scripted observations / orders
    (bracketed by api0 / api1 marks like every other scripted call) each k-th time the event is published"""
    from rqalpha.core.events import EVENT as _EV
    cnt = {'n': 0}
    evn = sub['ev']

    def handler(context, event):
        cnt['n'] += 1
        if cnt['n'] % sub.get('every', 1) or (sub.get('max') is not None and cnt['n'] > sub['max'] * sub.get('every', 1)):
            return
        env = rec.env
        bd = getattr(event, 'bar_dict', None)
        saved = getattr(context, '_bar_dict', None)
        if bd is not None:
            context._bar_dict = bd
        rec.mark('user0', ph='event:' + evn, day=-3, bar=cnt['n'])
        for act in sub['acts']:
            if act['op'] in ('bar', 'bar_mavg') and getattr(context, '_bar_dict', None) is None:
                continue
            rec.mark('api0', act=act, ph='event:' + evn, day=-3, bar=cnt['n'])
            exc = None
            ret, res = [], None
            try:
                ret, res = do_action(api, env, context, act, box['orders'], rec)
            except Exception as e:
                exc = dict(cls=type(e).__name__, msg=str(e)[:120])
            rec.digest = zlib.crc32(repr((res, [(o.get('status'), o.get('qty'), o.get('filled')) for o in ret], exc and exc['cls'])).encode(), getattr(rec, 'digest', 0))
            rec.mark('api1', act=act, ret=ret, res=res, exc=exc)
        rec.mark('user1', ph='event:' + evn, day=-3, bar=cnt['n'])
        context._bar_dict = saved
    api.subscribe_event(_EV[evn], handler)


def install_sched(api, reg, rec):
    """reg: dict(kind=daily|weekly|monthly, weekday=, tradingday=, time=None|('before_trading',)|('open',m)|('close',m)|('phys',h,m), tag=, act=optional action)"""
    from rqalpha.mod.rqalpha_mod_sys_scheduler import scheduler as S
    sch = api.scheduler
    tr = None
    t = reg.get('time')
    if t:
        if t[0] == 'before_trading':
            tr = 'before_trading'
        elif t[0] == 'open':
            tr = api.market_open(hour=t[1] // 60, minute=t[1] % 60)
        elif t[0] == 'close':
            tr = api.market_close(hour=t[1] // 60, minute=t[1] % 60)
        elif t[0] == 'phys':
            tr = api.physical_time(hour=t[1], minute=t[2])
    tag = reg['tag']

    def fn(context, bar_dict):
        rec.mark('sched', tag=tag, has_bars=bar_dict is not None)
        if reg.get('act'):
            env = rec.env
            rec.mark('api0', act=reg['act'], ph='scheduled', day=-2, bar=0)
            exc = None
            ret, res = [], None
            try:
                ret, res = do_action(api, env, context, reg['act'], [], rec)
            except Exception as e:
                exc = dict(cls=type(e).__name__, msg=str(e)[:120])
            rec.digest = zlib.crc32(repr((res, [(o.get('status'), o.get('qty'), o.get('filled')) for o in ret], exc and exc['cls'])).encode(), getattr(rec, 'digest', 0))
            rec.mark('api1', act=reg['act'], ret=ret, res=res, exc=exc)

    kw = {}
    if tr is not None:
        kw['time_rule'] = tr
    if reg['kind'] == 'daily':
        sch.run_daily(fn, **kw)
    elif reg['kind'] == 'weekly':
        if reg.get('weekday') is not None:
            sch.run_weekly(fn, weekday=reg['weekday'], **kw)
        else:
            sch.run_weekly(fn, tradingday=reg['tradingday'], **kw)
    elif reg['kind'] == 'monthly':
        sch.run_monthly(fn, tradingday=reg['tradingday'], **kw)
