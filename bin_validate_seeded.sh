#!/bin/bash
# validate every seeded change in a scratch worktree: demo passes on the clean tree, fails with the patch, suite keeps its 64 passes
set -u
WT=/tmp/wt_validate
OUT=/verif/seeded/validation.txt
rm -rf /tmp/mutkit && cp -r /verif/seeded/mutkit /tmp/mutkit   # the demos import mkbundle from /tmp/mutkit
: > $OUT
git -C /repo worktree remove --force $WT 2>/dev/null
git -C /repo worktree add -q --detach $WT HEAD
for d in /verif/seeded/C*; do
  id=$(basename $d)
  [ -f $d/patch.diff ] || continue
  cd $WT && git checkout -q -- . && git clean -fdq
  PYTHONPATH=$WT PYTHONHASHSEED=0 timeout 600 /venv/bin/python $d/demo.py $WT >/tmp/val_clean.log 2>&1; rc_clean=$?
  if git apply --check $d/patch.diff 2>/dev/null; then git apply $d/patch.diff; applied=yes; else applied=no; fi
  PYTHONPATH=$WT PYTHONHASHSEED=0 timeout 600 /venv/bin/python $d/demo.py $WT >/tmp/val_mut.log 2>&1; rc_mut=$?
  passed=$(cd $WT && /venv/bin/python -m pytest -q -p no:cacheprovider --timeout=900 --continue-on-collection-errors 2>&1 | tail -1)
  echo "$id applied=$applied clean_rc=$rc_clean mutant_rc=$rc_mut suite='$passed'" >> $OUT
  cd $WT && git checkout -q -- . && git clean -fdq
done
cd / && git -C /repo worktree remove --force $WT
echo DONE >> $OUT
